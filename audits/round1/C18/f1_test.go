package dyntpl

import (
	"errors"
	"io"
	"strings"
	"testing"
)

// Property C18, first sentence: "Every function deferred through the context during a render runs exactly once,
// in registration order, after the outermost template has finished producing output".
//
// A render that ENDS WITH AN ERROR returns from write() before ctx.defer_() (dyntpl.go, write(): "if err = writeTree(...);
// err != nil { return }"). The functions deferred so far stay in ctx.dfr; the Reset / ReleaseCtx that follows a render
// drops them (ctx.go, Reset(): "ctx.dfr = ctx.dfr[:0]"), so they run ZERO times. The error does not have to be
// exotic: a break / continue that is not inside a loop, an include of a template that is not registered, a modifier
// that fails in a {% ctx %} tag, a modifier that fails in a print tag INSIDE A LOOP (at top level the same failure is
// swallowed and the functions do run), a writer that fails.

type aud1FailWriter struct{ n int }

func (w *aud1FailWriter) Write(p []byte) (int, error) {
	w.n++
	if w.n > 1 {
		return 0, errors.New("aud1: writer failed")
	}
	return len(p), nil
}

func TestAudit1(t *testing.T) {
	var log []string
	RegisterModFn("aud1Defer", "", func(ctx *Ctx, buf *any, val any, args []any) error {
		tag := string(*args[0].(*[]byte))
		ctx.Defer(func() error {
			log = append(log, tag)
			return nil
		})
		return nil
	})
	RegisterModFn("aud1Fail", "", func(ctx *Ctx, buf *any, val any, args []any) error {
		return errors.New("aud1: modifier failed")
	})
	reg := func(key, src string) {
		tree, err := Parse([]byte(src), false)
		if err != nil {
			t.Fatalf("parse %s: %v", key, err)
		}
		RegisterTplKey(key, tree)
	}
	reg("aud1_inc_break", `[inc {%= a|aud1Defer("i") %}{% break %}never]`)

	cases := []struct {
		name, src, want string
		w               io.Writer
	}{
		// control: the failing print tag at top level is swallowed, the render succeeds, both functions run
		{"control_print_fail_top", `{%= a|aud1Defer("1") %}{%= a|aud1Fail() %}{%= a|aud1Defer("2") %}tail`, "1,2", nil},
		{"break_outside_loop", `{%= a|aud1Defer("1") %}{% break %}tail`, "1", nil},
		{"continue_outside_loop", `{%= a|aud1Defer("1") %}{% continue %}tail`, "1", nil},
		{"include_ends_with_break", `{%= a|aud1Defer("1") %}{% include aud1_inc_break %}tail`, "1,i", nil},
		{"include_not_registered", `{%= a|aud1Defer("1") %}{% include aud1_nope %}tail`, "1", nil},
		{"ctx_modifier_fails", `{%= a|aud1Defer("1") %}{% ctx x = a|aud1Fail() %}tail`, "1", nil},
		{"print_modifier_fails_in_loop", `{%= a|aud1Defer("1") %}{% for i:=0; i<2; i++ %}{%= a|aud1Fail() %}x{% endfor %}tail`, "1", nil},
		{"writer_fails", `one{%= a|aud1Defer("1") %}two`, "1", &aud1FailWriter{}},
	}
	for _, c := range cases {
		t.Run(c.name, func(t *testing.T) {
			reg("aud1_"+c.name, c.src)
			log = log[:0]
			ctx := AcquireCtx()
			ctx.SetStatic("a", "A")
			var (
				out []byte
				err error
			)
			if c.w != nil {
				err = Write(c.w, "aud1_"+c.name, ctx)
			} else {
				out, err = Render("aud1_"+c.name, ctx)
			}
			// The caller is done with the context, whatever the render returned.
			ReleaseCtx(ctx)
			if got := strings.Join(log, ","); got != c.want {
				t.Errorf("render returned (%q, %v); deferred functions that ran until the context was released: got [%s], want [%s] (each exactly once)",
					out, err, got, c.want)
			}
		})
	}
}
