package dyntpl

import (
	"strings"
	"testing"
)

// Property C18, first sentence: "Every function deferred through the context during a render runs exactly once".
//
// ctx.defer_() (ctx.go) empties the list only AFTER its loop and is re-entrant by way of write(): a deferred
// function that renders something with the same context (a footer, a log line, ...) makes the inner write() run the
// whole list again from index 0 — every function registered before it runs a second time, the function itself is
// entered a second time (without a guard of its own: endless recursion, a fatal stack overflow).
func TestAudit4(t *testing.T) {
	var log []string
	RegisterModFn("aud4Defer", "", func(ctx *Ctx, buf *any, val any, args []any) error {
		tag := string(*args[0].(*[]byte))
		ctx.Defer(func() error {
			log = append(log, tag)
			return nil
		})
		return nil
	})
	entered := 0
	RegisterModFn("aud4DeferRender", "", func(ctx *Ctx, buf *any, val any, args []any) error {
		ctx.Defer(func() error {
			entered++
			if entered > 1 {
				// Own guard of the test against the endless recursion.
				return nil
			}
			log = append(log, "R")
			_, err := Render("aud4_footer", ctx)
			return err
		})
		return nil
	})
	reg := func(key, src string) {
		tree, err := Parse([]byte(src), false)
		if err != nil {
			t.Fatalf("parse %s: %v", key, err)
		}
		RegisterTplKey(key, tree)
	}
	reg("aud4_footer", `footer`)
	reg("aud4_main", `{%= a|aud4Defer("1") %}{%= a|aud4DeferRender() %}{%= a|aud4Defer("3") %}tail`)

	ctx := NewCtx()
	ctx.SetStatic("a", "A")
	out, err := Render("aud4_main", ctx)
	ctx.Reset()
	got := strings.Join(log, ",")
	if err != nil || string(out) != "AAAtail" {
		t.Fatalf("unexpected render result (%q, %v)", out, err)
	}
	if want := "1,R,3"; got != want || entered != 1 {
		t.Errorf("deferred functions run: got [%s] and the rendering function entered %d time(s), want [%s] and 1 (each exactly once)", got, entered, want)
	}
}
