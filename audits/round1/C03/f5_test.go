package dyntpl

import (
	"testing"

	"github.com/koykov/inspector/testobj"
	"github.com/koykov/inspector/testobj_ins"
)

// Property C03: "a range loop renders its body once per element of the addressed collection", "the else branch renders
// if and only if there were no iterations" (quantifier: collections of length 0..n, "with and without separator /
// else").
//
// A range loop over a variable that is not set has no iterations: it must render nothing (or its else branch) and let
// the template go on; it does so in the controls below. But Ctx.rloop does not touch ctx.Err on that path, and
// Tpl.writeNode (case typeLoopRange) reports whatever is in ctx.Err after the loop as the loop's failure. When an
// earlier print tag left a modifier error there (such a tag prints nothing and the rendering goes on), the loop
// WITHOUT else branch aborts the template with that foreign error, whereas the same loop WITH an else branch renders
// the branch, overwrites ctx.Err and lets the template go on: presence of the else branch decides whether the text
// after the loop is rendered.
func TestAudit5(t *testing.T) {
	user := &testobj.TestObject{Id: "1"}
	cases := []struct{ name, tpl, want string }{
		{"control: no failed print before", `<>{% for _, v := range missing %}{%= v %}{% endfor %}|after`, "<>|after"},
		{"control: failed print, no loop", `<{%h= user.Nope %}>|after`, "<>|after"},
		{"control: failed print, loop with else", `<{%h= user.Nope %}>{% for _, v := range missing %}{%= v %}{% else %}E{% endfor %}|after`, "<>E|after"},
		{"failed print, loop without else", `<{%h= user.Nope %}>{% for _, v := range missing %}{%= v %}{% endfor %}|after`, "<>|after"},
	}
	for i, c := range cases {
		tree, err := Parse([]byte(c.tpl), false)
		if err != nil {
			t.Fatalf("%s: template rejected by the parser (would be a grammar limit, not a finding): %v", c.name, err)
		}
		key := "audit5_" + string(rune('a'+i))
		RegisterTplKey(key, tree)
		ctx := NewCtx()
		ctx.Set("user", user, testobj_ins.TestObjectInspector{})
		got, err := Render(key, ctx)
		if err != nil || string(got) != c.want {
			t.Errorf("%s: %s\n got: %q, err=%v\nwant: %q, err=<nil>", c.name, c.tpl, got, err, c.want)
		}
	}
}
