package dyntpl

import (
	"testing"

	"github.com/koykov/inspector"
)

// Property C03: "a range loop renders its body once per element of the addressed collection ... binding key and
// value", "the else branch renders if and only if there were no iterations", "nested ... loops do not disturb one
// another" (quantifier: "for all nestings and sequences of loops in one template").
//
// Inside a counter loop a path may be indexed by the counter ("m[i].p" is rewritten to "m.0.p", "m.1.p" by
// Ctx.replaceQB: every print, comparison and counter-loop bound goes through it). The source of a range loop nested
// in the counter loop does not: Ctx.rloop splits node.loopSrc by "." as it is, looks for a variable called "m[i]",
// finds none and treats the collection as absent: the body is never rendered and the else branch is rendered, although
// the addressed collections m.0 and m.1 have one element each.
func TestAudit3(t *testing.T) {
	data := map[string]any{
		"0": map[string]any{"p": 1},
		"1": map[string]any{"q": 2},
	}
	cases := []struct{ name, tpl, want string }{
		// controls: the same collection addressed without an index, and the same index in a print tag
		{"control: range m.0 / m.1", `[{% for k, v := range m.0 %}{%= k %}={%= v %}{% else %}E{% endfor %}][{% for k, v := range m.1 %}{%= k %}={%= v %}{% else %}E{% endfor %}]`, "[p=1][q=2]"},
		{"control: print m[i].p", `{% for i := 0; i < 2; i++ %}[{%= m[i].p %}{%= m[i].q %}]{% endfor %}`, "[1][2]"},
		{"range m[i] in counter loop", `{% for i := 0; i < 2; i++ %}[{% for k, v := range m[i] %}{%= k %}={%= v %}{% else %}E{% endfor %}]{% endfor %}`, "[p=1][q=2]"},
	}
	for i, c := range cases {
		tree, err := Parse([]byte(c.tpl), false)
		if err != nil {
			t.Fatalf("%s: template rejected by the parser (would be a grammar limit, not a finding): %v", c.name, err)
		}
		key := "audit3_" + string(rune('a'+i))
		RegisterTplKey(key, tree)
		ctx := NewCtx()
		ctx.Set("m", data, inspector.StringAnyMapInspector{})
		got, err := Render(key, ctx)
		if err != nil || string(got) != c.want {
			t.Errorf("%s: %s\n got: %q, err=%v\nwant: %q, err=<nil>", c.name, c.tpl, got, err, c.want)
		}
	}
}
