package dyntpl

import "testing"

// Property C03, sentence 1: "A counter loop renders its body once for each counter value from the initial value while
// the bound comparison holds ... with initial value and bound given as literals or variables" (quantifier: every
// supported bound operator, literal/variable bounds).
//
// A blank between the bound and the semicolon that follows it ("i < 3 ; i++", the very spelling that is accepted
// after the initial value: "i := 0 ; ...") is accepted by the parser, but the bound is stored as "3 " / "n ": it is
// no longer recognised as a literal, is looked up as a variable of that name, and the render fails with
// ErrWrongLoopLim instead of rendering the body three times.
func TestAudit1(t *testing.T) {
	cases := []struct{ name, tpl, want string }{
		// control: the same blank after the initial value is harmless
		{"control: blank after init", `{% for i := 0 ; i < 3; i++ %}{%= i %}{% endfor %}`, "012"},
		{"literal bound, blank before ;", `{% for i := 0; i < 3 ; i++ %}{%= i %}{% endfor %}`, "012"},
		{"variable bound, blank before ;", `{% for i := 0; i <= n ; i++ %}{%= i %}{% endfor %}`, "0123"},
		{"down, literal bound, blank before ;", `{% for i := 3; i > 0 ; i-- sep , %}{%= i %}{% endfor %}`, "3,2,1"},
	}
	for i, c := range cases {
		tree, err := Parse([]byte(c.tpl), false)
		if err != nil {
			t.Fatalf("%s: template rejected by the parser (would be a grammar limit, not a finding): %v", c.name, err)
		}
		key := "audit1_" + string(rune('a'+i))
		RegisterTplKey(key, tree)
		ctx := NewCtx()
		ctx.SetStatic("n", 3)
		got, err := Render(key, ctx)
		if err != nil || string(got) != c.want {
			t.Errorf("%s: %s\n got: %q, err=%v\nwant: %q, err=<nil>", c.name, c.tpl, got, err, c.want)
		}
	}
}
