package dyntpl

import "testing"

// Property C03, sentence 1: "A counter loop renders its body once for each counter value from the initial value while
// the bound comparison holds, stepping by one up or down, with initial value and bound given as literals or
// variables"; sentence 2: "the else branch renders if and only if there were no iterations".
//
// A counter loop whose initial value is a variable with a name that starts with "range" (rangeMin, rangeStart,
// rangeFrom ...) is taken for a RANGE loop by the parser (reLoopRange is tried first and "\s*range\s*" needs no
// blank after the keyword): the loop becomes "range over the unknown variable 'Min;'" with the rest of the tag
// as separator. It is not rejected: it renders nothing, and when there is an else branch it renders the else
// branch although the counter loop has two iterations.
// With "=" instead of ":=" the same happens for a BOUND of that name: "for i = 0; i != rangeMax; i++".
func TestAudit2(t *testing.T) {
	cases := []struct{ name, tpl, want string }{
		{"control: other name", `{% for i := minVal; i < 3; i++ %}{%= i %}{% else %}E{% endfor %}`, "12"},
		{"init variable rangeMin", `{% for i := rangeMin; i < 3; i++ %}{%= i %}{% endfor %}`, "12"},
		{"init variable rangeMin, else", `{% for i := rangeMin; i < 3; i++ %}{%= i %}{% else %}E{% endfor %}`, "12"},
		{"control: bound rangeMax with :=", `{% for i := 0; i != rangeMax; i++ %}{%= i %}{% endfor %}`, "012"},
		{"bound variable rangeMax with =", `{% for i = 0; i != rangeMax; i++ %}{%= i %}{% endfor %}`, "012"},
	}
	for i, c := range cases {
		tree, err := Parse([]byte(c.tpl), false)
		if err != nil {
			t.Fatalf("%s: template rejected by the parser (would be a grammar limit, not a finding): %v", c.name, err)
		}
		key := "audit2_" + string(rune('a'+i))
		RegisterTplKey(key, tree)
		ctx := NewCtx()
		ctx.SetStatic("minVal", 1)
		ctx.SetStatic("rangeMin", 1)
		ctx.SetStatic("rangeMax", 3)
		got, err := Render(key, ctx)
		if err != nil || string(got) != c.want {
			t.Errorf("%s: %s\n got: %q, err=%v\nwant: %q, err=<nil>", c.name, c.tpl, got, err, c.want)
		}
	}
}
