package dyntpl

import (
	"testing"

	"github.com/koykov/inspector"
	"github.com/koykov/inspector/testobj"
	"github.com/koykov/inspector/testobj_ins"
)

// Property C03: "a range loop renders its body once per element of the addressed collection", "nested or successive
// loops do not disturb one another".
//
// A print tag whose modifier fails (here: {%h= ... %} of a value that does not exist, "argument is not string or
// bytes") prints nothing, leaves the error in ctx.Err and lets the rendering go on: outside a loop and inside a
// RANGE loop the rest of the template is rendered and Render returns no error (controls below). A COUNTER loop
// reports whatever is left in ctx.Err after its last iteration as its own failure (Tpl.writeNode, case
// typeLoopCount: "if ctx.Err != nil { err = ctx.Err; return }"; Ctx.cloop never clears what a body node left
// there). So the same body
//   - in a counter loop: all iterations are rendered, then everything after the loop is dropped and Render fails;
//   - in a counter loop nested in a range loop: the inner loop "fails" in the first iteration of the outer loop, the
//     outer range loop renders its body for the first element only (3 elements in the collection).
func TestAudit4(t *testing.T) {
	user := &testobj.TestObject{Id: "1"}
	cases := []struct{ name, tpl, want string }{
		{"control: no loop", `<{%h= user.Nope %}>|after`, "<>|after"},
		{"control: range loop", `{% for _, v := range list %}<{%h= user.Nope %}>{% endfor %}|after`, "<><><>|after"},
		{"counter loop", `{% for i := 0; i < 3; i++ %}<{%h= user.Nope %}>{% endfor %}|after`, "<><><>|after"},
		{"counter loop nested in range loop", `{% for _, v := range list sep , %}{%= v %}{% for i := 0; i < 2; i++ %}<{%h= user.Nope %}>{% endfor %}{% endfor %}|after`, "x<><>,y<><>,z<><>|after"},
	}
	for i, c := range cases {
		tree, err := Parse([]byte(c.tpl), false)
		if err != nil {
			t.Fatalf("%s: template rejected by the parser (would be a grammar limit, not a finding): %v", c.name, err)
		}
		key := "audit4_" + string(rune('a'+i))
		RegisterTplKey(key, tree)
		ctx := NewCtx()
		ctx.Set("user", user, testobj_ins.TestObjectInspector{})
		ctx.Set("list", []string{"x", "y", "z"}, inspector.StringsInspector{})
		got, err := Render(key, ctx)
		if err != nil || string(got) != c.want {
			t.Errorf("%s: %s\n got: %q, err=%v\nwant: %q, err=<nil>", c.name, c.tpl, got, err, c.want)
		}
	}
}
