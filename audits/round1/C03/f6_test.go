package dyntpl

import (
	"fmt"
	"testing"
)

// Property C03, sentence 1: "... with initial value and bound given as literals or variables" (quantifier: "literal /
// variable bounds incl. empty and single-iteration ranges"; boundary value / error path).
//
// A bound (or initial value) variable that holds a typed nil pointer of an integer type (*int, *int64, *uint32 ...: a
// pointer is what Ctx.get returns for counters and what callers pass to SetStatic to avoid boxing) makes Render panic
// with a nil pointer dereference in if2int (conv.go: "case *int: r = int64(*raw.(*int))") instead of returning
// ErrWrongLoopLim as it does for every other unusable bound (unset variable, float, nil interface).
func TestAudit6(t *testing.T) {
	const tpl = `{% for i := 0; i < np; i++ %}{%= i %}{% else %}E{% endfor %}`
	tree, err := Parse([]byte(tpl), false)
	if err != nil {
		t.Fatalf("template rejected by the parser: %v", err)
	}
	RegisterTplKey("audit6", tree)

	// control: the variable is not set at all
	ctx := NewCtx()
	got, err := Render("audit6", ctx)
	if err != ErrWrongLoopLim {
		t.Fatalf("control (unset bound variable): got %q, err=%v; want err=%v", got, err, ErrWrongLoopLim)
	}

	var panicked any
	func() {
		defer func() { panicked = recover() }()
		ctx := NewCtx()
		ctx.SetStatic("np", (*int)(nil))
		got, err = Render("audit6", ctx)
	}()
	if panicked != nil {
		t.Errorf("%s with np = (*int)(nil)\n got: panic %q\nwant: err=%v (as for the unset variable) or no iterations (\"E\"), no panic",
			tpl, fmt.Sprint(panicked), ErrWrongLoopLim)
	}
}
