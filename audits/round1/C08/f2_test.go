package dyntpl

import (
	"strings"
	"testing"
)

// Property C08: "Everything rendered inside an htmlescape region is HTML-escaped."
// The region is kept as a dynamic stack in ctx.bnd that is shared with included templates: an {% endhtmlescape %}
// met while rendering an INCLUDED template (or inside a branch of a condition) pops the region opened by the
// including template. Everything the parent writes afterwards - still between its own {% htmlescape %} and
// {% endhtmlescape %} - goes out unescaped.
func TestAudit2(t *testing.T) {
	const evil = `<script>alert("1")</script>`
	sub, err := Parse([]byte(`sub{% endhtmlescape %}`), false)
	if err != nil {
		t.Fatalf("parse sub: %v", err)
	}
	RegisterTplKey("audit2sub", sub)
	tree, err := Parse([]byte(`{% htmlescape %}{% include audit2sub %}<p>{%= x %}{% endhtmlescape %}`), false)
	if err != nil {
		t.Fatalf("parse: %v", err)
	}
	RegisterTplKey("audit2", tree)
	ctx := NewCtx()
	ctx.SetStatic("x", evil)
	got, err := Render("audit2", ctx)
	if err != nil {
		t.Fatalf("render: %v", err)
	}
	want := `sub&lt;p&gt;&lt;script&gt;alert(&quot;1&quot;)&lt;/script&gt;`
	if string(got) != want || strings.ContainsAny(string(got), "<>\"'") {
		t.Errorf("include closing the parent's region: got %q, want %q", got, want)
	}

	// Same thing without include: the end tag sits in a branch of a condition.
	tree, err = Parse([]byte(`{% htmlescape %}{% if one == 1 %}{% endhtmlescape %}{% endif %}<p>{%= x %}{% endhtmlescape %}`), false)
	if err != nil {
		t.Fatalf("parse: %v", err)
	}
	RegisterTplKey("audit2b", tree)
	ctx = NewCtx()
	ctx.SetStatic("x", evil)
	ctx.SetStatic("one", 1)
	got, err = Render("audit2b", ctx)
	if err != nil {
		t.Fatalf("render: %v", err)
	}
	if strings.ContainsAny(string(got), "<>\"'") {
		t.Logf("(variant, region closed inside a condition branch: got %q)", got)
	}
}
