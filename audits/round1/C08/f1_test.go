package dyntpl

import (
	"strings"
	"testing"
)

// Property C08: "HTML-escape output contains none of < > \" ' ..." - quantified "via h, a, the modifiers, repeated
// letters". The print prefix of {%fh= x %} / {%Fh= x %} / {%fa= x %} names the letter h (resp. a), but the parser
// (extractMods, the reModPfxF branch: off += len(m[2]) + 2) skips the letter that follows an f / F without precision,
// so the escaper is never attached and the value is written as is.
func TestAudit1(t *testing.T) {
	const evil = `<b a="1" c='2'>&`
	for _, c := range []struct{ key, tpl, forbidden string }{
		{"audit1fh", `{%fh= x %}`, "<>\"'"},
		{"audit1Fh", `{%Fh= x %}`, "<>\"'"},
		{"audit1fa", `{%fa= x %}`, "<>\"' ="},
		// Control: with a precision the same letters work.
		{"audit1f2h", `{%f.2h= x %}`, "<>\"'"},
	} {
		tree, err := Parse([]byte(c.tpl), false)
		if err != nil {
			t.Fatalf("%s: parse: %v", c.tpl, err)
		}
		RegisterTplKey(c.key, tree)
		ctx := NewCtx()
		ctx.SetStatic("x", evil)
		got, err := Render(c.key, ctx)
		if err != nil {
			t.Fatalf("%s: render: %v", c.tpl, err)
		}
		if strings.ContainsAny(string(got), c.forbidden) {
			t.Errorf("%s with x=%q: got %q, want escaped output without any of %q", c.tpl, evil, got, c.forbidden)
		}
	}
}
