package dyntpl

import (
	"strings"
	"testing"
)

// Property C08: "Everything rendered inside an htmlescape region is HTML-escaped."
// A value printed with the modifier raw (alias noesc) is written with w.Write directly, bypassing writeBound: inside
// {% htmlescape %}...{% endhtmlescape %} it reaches the output with all its markup. (The modifier is documented as
// "disable value escaping/quoting inside bound tags", so this is by design - but it is an exception the sentence of
// the property does not make.) It works through an include as well and through an enclosing jsonquote.
func TestAudit4(t *testing.T) {
	const evil = `<script>alert("1")</script>`
	sub, err := Parse([]byte(`{%= x|noesc %}`), false)
	if err != nil {
		t.Fatalf("parse sub: %v", err)
	}
	RegisterTplKey("audit4sub", sub)
	for _, c := range []struct{ key, tpl string }{
		{"audit4a", `{% htmlescape %}{%= x|raw %}{% endhtmlescape %}`},
		{"audit4b", `{% htmlescape %}{%= x|default("-")|noesc %}{% endhtmlescape %}`},
		{"audit4c", `{% htmlescape %}{% include audit4sub %}{% endhtmlescape %}`},
		{"audit4d", `{% htmlescape %}{% jsonquote %}{%= x|raw %}{% endjsonquote %}{% endhtmlescape %}`},
	} {
		tree, err := Parse([]byte(c.tpl), false)
		if err != nil {
			t.Fatalf("%s: parse: %v", c.tpl, err)
		}
		RegisterTplKey(c.key, tree)
		ctx := NewCtx()
		ctx.SetStatic("x", evil)
		got, err := Render(c.key, ctx)
		if err != nil {
			t.Fatalf("%s: render: %v", c.tpl, err)
		}
		if strings.ContainsAny(string(got), "<>\"'") {
			t.Errorf("%s: got %q, want HTML-escaped output (e.g. %q)", c.tpl, got, `&lt;script&gt;alert(&quot;1&quot;)&lt;/script&gt;`)
		}
	}
}
