package dyntpl

import (
	"strings"
	"testing"
)

// Property C08: "Everything rendered inside an htmlescape region is HTML-escaped."
// write() starts with ctx.bnd = ctx.bnd[:0]. When a modifier (or a condition helper) renders another template with
// the context it was given - Render / Write / RenderByID are public and take the same *Ctx - the open region of the
// OUTER rendering is dropped and the rest of the region is written unescaped.
func TestAudit5(t *testing.T) {
	inner, err := Parse([]byte(`inner`), false)
	if err != nil {
		t.Fatalf("parse inner: %v", err)
	}
	RegisterTplKey("audit5inner", inner)
	RegisterModFn("audit5Render", "", func(ctx *Ctx, buf *any, _ any, _ []any) error {
		b, err := Render("audit5inner", ctx)
		if err != nil {
			return err
		}
		ctx.BufModOut(buf, b)
		return nil
	})
	tree, err := Parse([]byte(`{% htmlescape %}<a>{%= x|audit5Render %}<b>{%= x %}{% endhtmlescape %}`), false)
	if err != nil {
		t.Fatalf("parse: %v", err)
	}
	RegisterTplKey("audit5", tree)
	ctx := NewCtx()
	ctx.SetStatic("x", `<x y="1">`)
	got, err := Render("audit5", ctx)
	if err != nil {
		t.Fatalf("render: %v", err)
	}
	want := `&lt;a&gt;inner&lt;b&gt;&lt;x y=&quot;1&quot;&gt;`
	if string(got) != want || strings.ContainsAny(string(got), "<>\"'") {
		t.Errorf("region after a nested Render with the same ctx: got %q, want %q", got, want)
	}
}
