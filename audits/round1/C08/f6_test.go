package dyntpl

import (
	"html"
	"testing"
)

// Property C08: "Decoding either with a standard HTML entity decoder returns the original text (attribute escaping
// may deliberately turn control characters into U+FFFD)."
// modAttrEscape walks the value with `for _, r := range b`: every byte that is not valid UTF-8 arrives as
// utf8.RuneError and is written as &#xfffd;. Such bytes are not control characters, the HTML escaper keeps them, and
// values of type []byte / string taken from data may well hold them (Latin-1 text, truncated UTF-8): the decoded text
// differs from the input, and different inputs collapse to the same output.
func TestAudit6(t *testing.T) {
	tree, err := Parse([]byte(`{%a= x %}`), false)
	if err != nil {
		t.Fatalf("parse: %v", err)
	}
	RegisterTplKey("audit6", tree)
	for _, in := range []string{"caf\xe9", "a\xffb", "\xe2\x82", "\xc0\xaf"} {
		ctx := NewCtx()
		ctx.SetBytes("x", []byte(in))
		got, err := Render("audit6", ctx)
		if err != nil {
			t.Fatalf("render %q: %v", in, err)
		}
		if dec := html.UnescapeString(string(got)); dec != in {
			t.Errorf("attrEscape(%q): got %q which decodes to %q, want output that decodes to the input", in, got, dec)
		}
	}
}
