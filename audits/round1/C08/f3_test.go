package dyntpl

import (
	"strings"
	"testing"
)

// Property C08: "HTML-escape output contains none of < > \" ' and no '&' other than the start of a character
// reference; attribute-escape output contains only ASCII letters, digits, the characters , . - _ and character
// references" - quantified over "h, a, the modifiers".
// The modifiers take the number of iterations as argument (that is how hh= / aaa= are implemented); printIterations
// accepts 0 and negative numbers, then the escape loop does not run at all and the modifier returns its input as its
// output: {%= x|htmlEscape(0) %}, {%= x|he(-1) %}, {%= x|attrEscape(0) %}.
func TestAudit3(t *testing.T) {
	const evil = `<b a="1" c='2'>&`
	for _, c := range []struct{ key, tpl, forbidden string }{
		{"audit3h0", `{%= x|htmlEscape(0) %}`, "<>\"'"},
		{"audit3hq0", `{%= x|htmlEscape("0") %}`, "<>\"'"},
		{"audit3hneg", `{%= x|he(-1) %}`, "<>\"'"},
		{"audit3a0", `{%= x|attrEscape(0) %}`, "<>\"' ="},
		{"audit3aneg", `{%= x|ae(-3) %}`, "<>\"' ="},
	} {
		tree, err := Parse([]byte(c.tpl), false)
		if err != nil {
			t.Fatalf("%s: parse: %v", c.tpl, err)
		}
		RegisterTplKey(c.key, tree)
		ctx := NewCtx()
		ctx.SetStatic("x", evil)
		got, err := Render(c.key, ctx)
		if err != nil {
			t.Fatalf("%s: render: %v", c.tpl, err)
		}
		if strings.ContainsAny(string(got), c.forbidden) {
			t.Errorf("%s with x=%q: got %q, want output of the escaper without any of %q", c.tpl, evil, got, c.forbidden)
		}
	}
}
