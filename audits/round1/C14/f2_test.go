package dyntpl

import (
	"bytes"
	"testing"

	"github.com/koykov/inspector/testobj"
	"github.com/koykov/inspector/testobj_ins"
)

// Property C14, last sentence: "The conditional forms (break if, break N if, lazybreak if, lazybreak N if,
// continue if) behave exactly like the same instruction wrapped in an if block."
//
// An if-ok block ({% if v, ok := helper(args).(Type); ok %}...{% endif %}) is an if block the library supports, and
// wrapping a break into it works. The same condition written in the conditional form is accepted by the parser but
// is not parsed as if-ok: the text before the bracket ("h, ok := __testUserNextHistory999") is taken for the name of
// a plain condition helper, and the render fails with "condition helper not found".
func TestAudit2(t *testing.T) {
	obj := &testobj.TestObject{
		Finance: &testobj.TestFinance{
			History: []testobj.TestHistory{{Cost: 1}, {Cost: 2}, {Cost: 3}},
		},
	}
	render := func(key, src string) string {
		tree, err := Parse([]byte(src), false)
		if err != nil {
			t.Fatalf("%s: parser rejected the template (that would be fine, but it does not): %v", key, err)
		}
		RegisterTplKey(key, tree)
		ctx := NewCtx()
		ctx.Set("user", obj, testobj_ins.TestObjectInspector{})
		var b bytes.Buffer
		if err = Write(&b, key, ctx); err != nil {
			return b.String() + " ERR: " + err.Error()
		}
		return b.String()
	}
	// The built-in example helper __testUserNextHistory999 hands out the history rows one by one and says !ok after
	// the last (third) one: the loop must end in its fourth iteration.
	const cond = `h, ok := __testUserNextHistory999(user.Finance).(TestHistory); !ok`
	want := render("audit2-wrapped", `{% for i := 0; i < 6; i++ %}{%= i %}{% if `+cond+` %}{% break %}{% endif %}:{%= h.Cost %},{% endfor %}E`)
	if want != "0:1,1:2,2:3,3E" {
		t.Fatalf("wrapped form renders %q", want)
	}
	got := render("audit2-short", `{% for i := 0; i < 6; i++ %}{%= i %}{% break if `+cond+` %}:{%= h.Cost %},{% endfor %}E`)
	if got != want {
		t.Errorf("break if <if-ok condition>: got %q, want %q (as the wrapped form)", got, want)
	}
}
