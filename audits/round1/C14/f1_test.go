package dyntpl

import (
	"bytes"
	"testing"
)

// Property C14, last sentence: "The conditional forms (break if, break N if, lazybreak if, lazybreak N if,
// continue if) behave exactly like the same instruction wrapped in an if block."
//
// A "break N if <cond>" / "lazybreak N if <cond>" tag whose N and "if" are separated by anything but exactly one
// space (two spaces, a tab, or a line break that Parse(..., keepFmt=false) removes together with the indentation)
// is accepted by the parser, but the condition is dropped: the tag is executed as an unconditional break N /
// lazybreak N. Here the condition (j == 7) is never true, so nothing may be broken at all.
func TestAudit1(t *testing.T) {
	render := func(key, src string) string {
		tree, err := Parse([]byte(src), false)
		if err != nil {
			t.Fatalf("%s: parser rejected the template (that would be fine, but it does not): %v", key, err)
		}
		RegisterTplKey(key, tree)
		ctx := NewCtx()
		var b bytes.Buffer
		if err = Write(&b, key, ctx); err != nil {
			return b.String() + " ERR: " + err.Error()
		}
		return b.String()
	}
	const head = `{% for i := 0; i < 2; i++ %}[{% for j := 0; j < 3; j++ %}{%= i %}{%= j %}`
	const tail = `,{% endfor %}]{% endfor %}E`

	for _, ins := range []string{"break 2", "lazybreak 2"} {
		want := render("audit1-wrapped-"+ins, head+`{% if j == 7 %}{% `+ins+` %}{% endif %}`+tail)
		if want != "[00,01,02,][10,11,12,]E" {
			t.Fatalf("wrapped form of %q renders %q", ins, want)
		}
		if got := render("audit1-one-space-"+ins, head+`{% `+ins+` if j == 7 %}`+tail); got != want {
			t.Errorf("%s if (one space): got %q, want %q", ins, got, want)
		}
		variants := map[string]string{
			"two spaces":               `{% ` + ins + `  if j == 7 %}`,
			"tab":                      "{% " + ins + "\tif j == 7 %}",
			"line break (keepFmt=off)": "{% " + ins + "\n\t\tif j == 7 %}",
		}
		for name, tag := range variants {
			if got := render("audit1-"+name+"-"+ins, head+tag+tail); got != want {
				t.Errorf("%q (%s between N and if): the condition is never true, but got %q, want %q (as the wrapped form)", tag, name, got, want)
			}
		}
	}
}
