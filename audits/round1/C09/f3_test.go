package dyntpl

import "testing"

// Property C09, sentence 1: "URL-encode output consists only of ASCII letters, digits, the characters '-', '.', '_',
// '+' and %XX triplets ...; link-escape output contains no space and no double quote that is not preceded by a
// backslash", quantifier "via ... the modifiers".
//
// The iteration argument of the modifiers is taken as it is: with 0, 00, a negative number (literal, or a string /
// bytes variable holding such text) the encode loop does not run at all and modURLEncode / modLinkEscape hand out the
// SOURCE bytes as their result.
func TestAudit3(t *testing.T) {
	const val = `a b"c&d/e`
	render := func(key, src string) string {
		tree, err := Parse([]byte(src), false)
		if err != nil {
			t.Fatalf("%s: parse: %v", src, err)
		}
		RegisterTplKey(key, tree)
		ctx := AcquireCtx()
		defer ReleaseCtx(ctx)
		ctx.SetString("x", val)
		ctx.SetString("n", "0")
		out, err := Render(key, ctx)
		if err != nil {
			t.Fatalf("%s: render: %v", src, err)
		}
		return string(out)
	}
	safe := func(s string) bool {
		for i := 0; i < len(s); i++ {
			c := s[i]
			switch {
			case c >= 'a' && c <= 'z', c >= 'A' && c <= 'Z', c >= '0' && c <= '9', c == '-', c == '.', c == '_', c == '+':
			case c == '%' && i+2 < len(s):
				i += 2
			default:
				return false
			}
		}
		return true
	}
	for i, src := range []string{`{%= x|urlEncode(0) %}`, `{%= x|urlEncode(-1) %}`, `{%= x|ue(00) %}`, `{%= x|urlEncode(n) %}`} {
		got := render("audit3_u"+string(rune('a'+i)), src)
		if !safe(got) {
			t.Errorf("%s: got %q want only safe characters (e.g. %q)", src, got, `a+b%22c%26d%2Fe`)
		}
	}
	for i, src := range []string{`{%= x|linkEscape(0) %}`, `{%= x|le(-3) %}`} {
		got := render("audit3_l"+string(rune('a'+i)), src)
		if want := `a+b\"c&d/e`; got != want {
			t.Errorf("%s: got %q want %q (no space, no bare quote)", src, got, want)
		}
	}
}
