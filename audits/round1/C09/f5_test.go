package dyntpl

import "testing"

// Property C09, sentence 1: "URL-encode output consists only of ASCII letters, digits, ... and %XX triplets ..."
// via u and the modifiers.
//
// RegisterModFn refuses to replace an existing NAME, but writes the ALIAS into the registry unconditionally
// (mod.go: `modRegistry[alias] = idx`). Registering any modifier whose alias is "urlEncode" (or "ue") re-routes the
// built-in: templates parsed afterwards get the foreign function for {%u= %}, {%uu= %} and |urlEncode, and print
// un-encoded text.
func TestAudit5(t *testing.T) {
	const val = `a b"c&d/e`
	orig := modRegistry["urlEncode"]
	defer func() { modRegistry["urlEncode"] = orig }()

	// A harmless looking registration: new name, alias equal to the built-in's name.
	RegisterModFn("auditUpper", "urlEncode", func(_ *Ctx, _ *any, _ any, _ []any) error { return nil })

	tree, err := Parse([]byte(`{%u= x %}|{%= x|urlEncode %}`), false)
	if err != nil {
		t.Fatal(err)
	}
	RegisterTplKey("audit5", tree)
	ctx := AcquireCtx()
	defer ReleaseCtx(ctx)
	ctx.SetString("x", val)
	out, err := Render("audit5", ctx)
	if err != nil {
		t.Fatal(err)
	}
	if got, want := string(out), `a+b%22c%26d%2Fe|a+b%22c%26d%2Fe`; got != want {
		t.Errorf("got %q want %q", got, want)
	}
}
