package dyntpl

import (
	"net/url"
	"testing"
)

// Property C09, sentence 1: "URL-encode output consists only of ASCII letters, digits, the characters
// '-', '.', '_', '+' and %XX triplets with upper-case hex, and query-string decoding returns exactly the original
// bytes; link-escape output contains no space and no double quote that is not preceded by a backslash."
// Quantifier: "via u, l, repeated letters".
//
// A print tag whose letter group has an 'f' / 'F' (float precision) letter WITHOUT a precision directly before the
// 'u' / 'l' letter silently loses that letter: {%fu= x %}, {%Fu= x %}, {%f2u= x %}, {%fl= x %} are accepted by the
// parser and print x as it is, although {%uf= x %} and {%f.2u= x %} encode.
func TestAudit1(t *testing.T) {
	const val = `a b"c&d/e`
	render := func(key, src string) string {
		tree, err := Parse([]byte(src), false)
		if err != nil {
			t.Fatalf("%s: parse: %v", src, err)
		}
		RegisterTplKey(key, tree)
		ctx := AcquireCtx()
		defer ReleaseCtx(ctx)
		ctx.SetString("x", val)
		out, err := Render(key, ctx)
		if err != nil {
			t.Fatalf("%s: render: %v", src, err)
		}
		return string(out)
	}
	// Control: the same letters in the other order do encode.
	if got, want := render("audit1_ctl", `{%uf= x %}`), `a+b%22c%26d%2Fe`; got != want {
		t.Fatalf("control {%%uf= x %%}: got %q want %q", got, want)
	}
	for i, src := range []string{`{%fu= x %}`, `{%Fu= x %}`, `{%f2u= x %}`} {
		got := render("audit1_u"+string(rune('a'+i)), src)
		want := `a+b%22c%26d%2Fe`
		if got != want {
			t.Errorf("%s: got %q want %q (the 'u' letter was dropped)", src, got, want)
		}
		if dec, err := url.QueryUnescape(got); err != nil || dec != val || got == val {
			t.Errorf("%s: output %q is not the URL-encoded form of %q", src, got, val)
		}
	}
	if got, want := render("audit1_l", `{%fl= x %}`), `a+b\"c&d/e`; got != want {
		t.Errorf("{%%fl= x %%}: got %q want %q (the 'l' letter was dropped: space and bare quote in the output)", got, want)
	}
}
