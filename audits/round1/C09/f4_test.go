package dyntpl

import "testing"

// Property C09, last sentence: "Everything rendered inside a urlencode region is URL-encoded."
//
// A print tag marked with the raw / noesc modifier writes its value straight to the writer (dyntpl.go, writeNode,
// `if node.noesc { w.Write(b) }`), by-passing Ctx.writeBound: inside {% urlencode %}...{% endurlencode %} the value
// comes out with its spaces, quotes, ampersands and slashes, while the prefix / suffix of the same tag and the text
// around it are encoded.
func TestAudit4(t *testing.T) {
	const val = `a b"c&d/e`
	render := func(key, src string) string {
		tree, err := Parse([]byte(src), false)
		if err != nil {
			t.Fatalf("%s: parse: %v", src, err)
		}
		RegisterTplKey(key, tree)
		ctx := AcquireCtx()
		defer ReleaseCtx(ctx)
		ctx.SetString("x", val)
		out, err := Render(key, ctx)
		if err != nil {
			t.Fatalf("%s: render: %v", src, err)
		}
		return string(out)
	}
	for i, c := range []struct{ src, want string }{
		{`{% urlencode %}p q{%= x|raw %}{% endurlencode %}`, `p+qa+b%22c%26d%2Fe`},
		{`{% urlencode %}{%= x|noesc %}{% endurlencode %}`, `a+b%22c%26d%2Fe`},
		{`{% urlencode %}{%= x|default("z")|raw %}{% endurlencode %}`, `a+b%22c%26d%2Fe`},
	} {
		got := render("audit4_"+string(rune('a'+i)), c.src)
		if got != c.want {
			t.Errorf("%s: got %q want %q", c.src, got, c.want)
		}
	}
}
