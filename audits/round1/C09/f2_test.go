package dyntpl

import "testing"

// Property C09, sentence 1 ("URL-encode output consists only of ... ; link-escape output contains no space and no
// double quote that is not preceded by a backslash"), quantifier "via ... the modifiers".
//
// The modifier spelling with white space next to the name is accepted by the parser, but the modifier is silently
// dropped (the name is looked up untrimmed: " urlEncode", "urlEncode "), so the value is printed as it is:
//   {%= x| urlEncode %}     {%= x|urlEncode (2) %}     {%= x| linkEscape %}
func TestAudit2(t *testing.T) {
	const val = `a b"c&d/e`
	render := func(key, src string) string {
		tree, err := Parse([]byte(src), false)
		if err != nil {
			t.Fatalf("%s: parse: %v", src, err)
		}
		RegisterTplKey(key, tree)
		ctx := AcquireCtx()
		defer ReleaseCtx(ctx)
		ctx.SetString("x", val)
		out, err := Render(key, ctx)
		if err != nil {
			t.Fatalf("%s: render: %v", src, err)
		}
		return string(out)
	}
	for i, c := range []struct{ src, want string }{
		{`{%= x|urlEncode %}`, `a+b%22c%26d%2Fe`}, // control
		{`{%= x| urlEncode %}`, `a+b%22c%26d%2Fe`},
		{`{%= x|urlEncode (2) %}`, `a%2Bb%2522c%2526d%252Fe`},
		{`{%= x|ue () %}`, `a+b%22c%26d%2Fe`},
		{`{%= x| linkEscape %}`, `a+b\"c&d/e`},
	} {
		got := render("audit2_"+string(rune('a'+i)), c.src)
		if got != c.want {
			t.Errorf("%s: got %q want %q", c.src, got, c.want)
		}
	}
}
